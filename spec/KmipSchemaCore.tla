--------------------------- MODULE KmipSchemaCore ---------------------------
(***************************************************************************)
(* Field schemas of KMIP structures and the function from an abstract      *)
(* protocol value to the TTLV tree the KMIP specification prescribes for   *)
(* it (C01).  Written from the KMIP 1.0-2.0 specifications (object and     *)
(* message definitions, sections 2-4 and 6-7), not from kmip.core.         *)
(*                                                                         *)
(* A class schema is a sequence of field descriptors                       *)
(*    [n: field name, t: tag name, k: kind, of: class/enum name,           *)
(*     c: cardinality "1" "?" "*" "+", lo..hi: KMIP versions defining it]  *)
(* in wire order.  Kinds: int enum mask long bigint bool text bytes date    *)
(* interval  |  struct (of = class)  |  union (class named by the value)   *)
(* |  attrval / attr2 (value typed by the attribute's name)  |  tmpl       *)
(* (TemplateAttribute under 1.x, Attributes under 2.0).                    *)
(*                                                                         *)
(* An abstract value of a class is a record  field name -> value  plus     *)
(* "_k" -> class name; numbers are [s: 0|1 sign, m: big-endian magnitude   *)
(* bytes without leading zeros] (TLC integers are 32-bit), text is its     *)
(* UTF-8 byte sequence, byte strings are byte sequences, booleans are      *)
(* BOOLEAN, repeated fields are sequences.                                 *)
(***************************************************************************)
EXTENDS TTLV, KmipTags

F(n, t, k, of, c, lo, hi) == [n |-> n, t |-> t, k |-> k, of |-> of, c |-> c, lo |-> lo, hi |-> hi]
Req(n, t, k)        == F(n, t, k, "", "1", 10, 20)
Opt(n, t, k)        == F(n, t, k, "", "?", 10, 20)
Many(n, t, k)       == F(n, t, k, "", "*", 10, 20)
Some(n, t, k)       == F(n, t, k, "", "+", 10, 20)
ReqE(n, t, e)       == F(n, t, "enum", e, "1", 10, 20)
OptE(n, t, e)       == F(n, t, "enum", e, "?", 10, 20)
ManyE(n, t, e)      == F(n, t, "enum", e, "*", 10, 20)
ReqS(n, t, cls)     == F(n, t, "struct", cls, "1", 10, 20)
OptS(n, t, cls)     == F(n, t, "struct", cls, "?", 10, 20)
ManyS(n, t, cls)    == F(n, t, "struct", cls, "*", 10, 20)
SomeS(n, t, cls)    == F(n, t, "struct", cls, "+", 10, 20)
Since(f, v)         == [f EXCEPT !.lo = v]
Until(f, v)         == [f EXCEPT !.hi = v]
Card(f, c)          == [f EXCEPT !.c = c]

PrimKinds == {"int", "enum", "mask", "long", "bigint", "bool", "text", "bytes", "date", "interval"}
Versions == {10, 11, 12, 13, 14, 20}

--------------------------------------------------------------------------
(* primitives *)

PadTo(m, w) == Zeros(w - Len(m)) \o m
\* a magnitude with room for the sign bit
Roomy(m) == IF Len(m) = 0 \/ m[1] >= 128 THEN <<0>> \o m ELSE m

PrimTree(tag, kind, v) ==
    CASE kind \in {"int", "mask"} -> [tag |-> tag, typ |-> TInteger, val |-> IntVal(v.s = 1, PadTo(v.m, 4))]
      [] kind = "enum"            -> [tag |-> tag, typ |-> TEnum, val |-> PadTo(v.m, 4)]
      [] kind = "interval"        -> [tag |-> tag, typ |-> TInterval, val |-> PadTo(v.m, 4)]
      [] kind = "long"            -> [tag |-> tag, typ |-> TLong, val |-> LongVal(v.s = 1, PadTo(v.m, 8))]
      [] kind = "date"            -> [tag |-> tag, typ |-> TDateTime, val |-> LongVal(v.s = 1, PadTo(v.m, 8))]
      [] kind = "bigint"          -> [tag |-> tag, typ |-> TBigInt, val |-> BigVal(v.s = 1, Roomy(v.m))]
      [] kind = "bool"            -> [tag |-> tag, typ |-> TBool, val |-> BoolVal(v)]
      [] kind = "text"            -> [tag |-> tag, typ |-> TText, val |-> v]
      [] kind = "bytes"           -> [tag |-> tag, typ |-> TBytes, val |-> v]

\* is v a value of the primitive kind?  (guards the harness, not the implementation)
IsByteSeq(v) == \A i \in DOMAIN v : v[i] \in Byte
IsNum(v, width, signed) ==
    /\ v.s \in {0, 1} /\ IsByteSeq(v.m) /\ Len(v.m) <= width
    /\ (Len(v.m) > 0 => v.m[1] # 0)
    /\ (~signed => v.s = 0)
    /\ (signed /\ width > 0 /\ Len(v.m) = width =>
            \/ v.m[1] < 128
            \/ v.s = 1 /\ v.m[1] = 128 /\ \A i \in 2..Len(v.m) : v.m[i] = 0)     \* -2^(8w-1)
    /\ (v.s = 1 => Len(v.m) > 0)
PrimOK(kind, v) ==
    CASE kind \in {"int", "mask"} -> IsNum(v, 4, TRUE)
      [] kind = "enum"            -> IsNum(v, 4, FALSE)
      [] kind = "interval"        -> IsNum(v, 4, FALSE)
      [] kind \in {"long", "date"} -> IsNum(v, 8, TRUE)
      [] kind = "bigint"          -> v.s \in {0, 1} /\ IsByteSeq(v.m) /\ (Len(v.m) > 0 => v.m[1] # 0) /\ (v.s = 1 => Len(v.m) > 0)
      [] kind = "bool"            -> v \in BOOLEAN
      [] kind \in {"text", "bytes"} -> IsByteSeq(v)

--------------------------------------------------------------------------
(* tree equivalence: equal up to the width of big integers (KMIP fixes the *)
(* value and the 8-byte alignment, not a minimal width)                    *)

SameBig(a, b) ==
    LET la == Len(a)  lb == Len(b) IN
    IF la = 0 \/ lb = 0 THEN la = lb
    ELSE LET ea == IF a[1] >= 128 THEN 255 ELSE 0
             eb == IF b[1] >= 128 THEN 255 ELSE 0 IN
         /\ ea = eb
         /\ IF la >= lb THEN SubSeq(a, la - lb + 1, la) = b /\ \A i \in 1..(la - lb) : a[i] = ea
                        ELSE SubSeq(b, lb - la + 1, lb) = a /\ \A i \in 1..(lb - la) : b[i] = eb

RECURSIVE TreeEq(_, _)
TreeEq(a, b) ==
    /\ a.tag = b.tag /\ a.typ = b.typ
    /\ IF a.typ = TStructure
       THEN Len(a.val) = Len(b.val) /\ \A i \in DOMAIN a.val : TreeEq(a.val[i], b.val[i])
       ELSE IF a.typ = TBigInt THEN SameBig(a.val, b.val)
       ELSE a.val = b.val

\* where two trees first differ, as a path of tags (diagnostics)
RECURSIVE TreeDiff(_, _)
TreeDiff(a, b) ==
    IF a.tag # b.tag THEN <<"tag", a.tag, b.tag>>
    ELSE IF a.typ # b.typ THEN <<"type at", a.tag>>
    ELSE IF a.typ # TStructure THEN (IF TreeEq(a, b) THEN <<>> ELSE <<"value of", a.tag>>)
    ELSE IF Len(a.val) # Len(b.val)
         THEN <<"children of", a.tag, [i \in DOMAIN a.val |-> a.val[i].tag], [i \in DOMAIN b.val |-> b.val[i].tag]>>
    ELSE LET bad == {i \in DOMAIN a.val : ~TreeEq(a.val[i], b.val[i])} IN
         IF bad = {} THEN <<>>
         ELSE LET i == CHOOSE x \in bad : \A y \in bad : x <= y IN <<a.tag>> \o TreeDiff(a.val[i], b.val[i])
=============================================================================
