--------------------------- MODULE SchemaPayloads2 ---------------------------
(* Operation payloads, part 2 (KMIP 1.x section 4 "Client-to-Server        *)
(* Operations", KMIP 2.0 section 6.1): object life cycle and retrieval.     *)
EXTENDS KmipSchemaCore

SchemaPayloads2T == [
  \* --- Activate (1.0 4.18 / 1.1+ 4.19) -------------------------------------
  ActivateRequestPayload |-> <<
      Opt("unique_identifier", "UNIQUE_IDENTIFIER", "text") >>,
  ActivateResponsePayload |-> <<
      Req("unique_identifier", "UNIQUE_IDENTIFIER", "text") >>,
  \* --- Revoke (1.0 4.19 / 1.1+ 4.20) ---------------------------------------
  RevokeRequestPayload |-> <<
      Opt("unique_identifier", "UNIQUE_IDENTIFIER", "text"),
      ReqS("revocation_reason", "REVOCATION_REASON", "RevocationReason"),
      Opt("compromise_occurrence_date", "COMPROMISE_OCCURRENCE_DATE", "date") >>,
  RevokeResponsePayload |-> <<
      Req("unique_identifier", "UNIQUE_IDENTIFIER", "text") >>,
  \* --- Destroy (1.0 4.20 / 1.1+ 4.21) --------------------------------------
  DestroyRequestPayload |-> <<
      Opt("unique_identifier", "UNIQUE_IDENTIFIER", "text") >>,
  DestroyResponsePayload |-> <<
      Req("unique_identifier", "UNIQUE_IDENTIFIER", "text") >>,
  \* --- Archive (1.0 4.21 / 1.1+ 4.22) --------------------------------------
  ArchiveRequestPayload |-> <<
      Opt("unique_identifier", "UNIQUE_IDENTIFIER", "text") >>,
  ArchiveResponsePayload |-> <<
      Req("unique_identifier", "UNIQUE_IDENTIFIER", "text") >>,
  \* --- Recover (1.0 4.22 / 1.1+ 4.23) --------------------------------------
  RecoverRequestPayload |-> <<
      Opt("unique_identifier", "UNIQUE_IDENTIFIER", "text") >>,
  RecoverResponsePayload |-> <<
      Req("unique_identifier", "UNIQUE_IDENTIFIER", "text") >>,
  \* --- Cancel (1.0 4.25 / 1.1+ 4.27) ---------------------------------------
  CancelRequestPayload |-> <<
      Req("asynchronous_correlation_value", "ASYNCHRONOUS_CORRELATION_VALUE", "bytes") >>,
  CancelResponsePayload |-> <<
      Req("asynchronous_correlation_value", "ASYNCHRONOUS_CORRELATION_VALUE", "bytes"),
      ReqE("cancellation_result", "CANCELLATION_RESULT", "CancellationResult") >>,
  \* --- Poll (1.0 4.26 / 1.1+ 4.28); the response is the polled operation's response
  PollRequestPayload |-> <<
      Req("asynchronous_correlation_value", "ASYNCHRONOUS_CORRELATION_VALUE", "bytes") >>,
  \* --- Check (1.0 4.9 / 1.1+ 4.10) -----------------------------------------
  CheckRequestPayload |-> <<
      Opt("unique_identifier", "UNIQUE_IDENTIFIER", "text"),
      Opt("usage_limits_count", "USAGE_LIMITS_COUNT", "long"),
      Opt("cryptographic_usage_mask", "CRYPTOGRAPHIC_USAGE_MASK", "mask"),
      Opt("lease_time", "LEASE_TIME", "interval") >>,
  CheckResponsePayload |-> <<
      Req("unique_identifier", "UNIQUE_IDENTIFIER", "text"),
      Opt("usage_limits_count", "USAGE_LIMITS_COUNT", "long"),
      Opt("cryptographic_usage_mask", "CRYPTOGRAPHIC_USAGE_MASK", "mask"),
      Opt("lease_time", "LEASE_TIME", "interval") >>,
  \* --- Get (1.0 4.10 / 1.1+ 4.11) ------------------------------------------
  \* KMIP 1.4 and 2.0 define Key Wrap Type (enumeration, optional) between Key Format Type and Key Compression
  \* Type; GetRequestPayload has no constructor argument for it, so the field is left out.
  GetRequestPayload |-> <<
      Opt("unique_identifier", "UNIQUE_IDENTIFIER", "text"),
      OptE("key_format_type", "KEY_FORMAT_TYPE", "KeyFormatType"),
      OptE("key_compression_type", "KEY_COMPRESSION_TYPE", "KeyCompressionType"),
      OptS("key_wrapping_specification", "KEY_WRAPPING_SPECIFICATION", "KeyWrappingSpecification") >>,
  \* the managed object is a structure under its own tag (Symmetric Key, Certificate, ...), of the class that
  \* Object Type names
  GetResponsePayload |-> <<
      ReqE("object_type", "OBJECT_TYPE", "ObjectType"),
      Req("unique_identifier", "UNIQUE_IDENTIFIER", "text"),
      F("secret", "", "union", "", "1", 10, 20) >>,
  \* --- Get Usage Allocation (1.0 4.14 / 1.1+ 4.15) -------------------------
  GetUsageAllocationRequestPayload |-> <<
      Opt("unique_identifier", "UNIQUE_IDENTIFIER", "text"),
      Req("usage_limits_count", "USAGE_LIMITS_COUNT", "long") >>,
  GetUsageAllocationResponsePayload |-> <<
      Req("unique_identifier", "UNIQUE_IDENTIFIER", "text") >>,
  \* --- Obtain Lease (1.0 4.13 / 1.1+ 4.14) ---------------------------------
  ObtainLeaseRequestPayload |-> <<
      Opt("unique_identifier", "UNIQUE_IDENTIFIER", "text") >>,
  ObtainLeaseResponsePayload |-> <<
      Req("unique_identifier", "UNIQUE_IDENTIFIER", "text"),
      Req("lease_time", "LEASE_TIME", "interval"),
      Req("last_change_date", "LAST_CHANGE_DATE", "date") >>,
  \* --- Locate (1.0 4.8 / 1.1+ 4.9) -----------------------------------------
  \* 1.x: the attributes to match are repeated Attribute structures, directly in the payload.  2.0 replaces
  \* them by ONE Attributes structure (children typed and tagged by attribute name): kind "attrs".
  LocateRequestPayload |-> <<
      Opt("maximum_items", "MAXIMUM_ITEMS", "int"),
      Since(Opt("offset_items", "OFFSET_ITEMS", "int"), 13),
      Opt("storage_status_mask", "STORAGE_STATUS_MASK", "mask"),
      Since(OptE("object_group_member", "OBJECT_GROUP_MEMBER", "ObjectGroupMember"), 11),
      F("attributes", "ATTRIBUTE", "attrs", "", "*", 10, 20) >>,
  LocateResponsePayload |-> <<
      Since(Opt("located_items", "LOCATED_ITEMS", "int"), 13),
      Many("unique_identifiers", "UNIQUE_IDENTIFIER", "text") >>
]
ClassTagPayloads2 == [
  ActivateRequestPayload |-> "REQUEST_PAYLOAD", ActivateResponsePayload |-> "RESPONSE_PAYLOAD",
  RevokeRequestPayload |-> "REQUEST_PAYLOAD", RevokeResponsePayload |-> "RESPONSE_PAYLOAD",
  DestroyRequestPayload |-> "REQUEST_PAYLOAD", DestroyResponsePayload |-> "RESPONSE_PAYLOAD",
  ArchiveRequestPayload |-> "REQUEST_PAYLOAD", ArchiveResponsePayload |-> "RESPONSE_PAYLOAD",
  RecoverRequestPayload |-> "REQUEST_PAYLOAD", RecoverResponsePayload |-> "RESPONSE_PAYLOAD",
  CancelRequestPayload |-> "REQUEST_PAYLOAD", CancelResponsePayload |-> "RESPONSE_PAYLOAD",
  PollRequestPayload |-> "REQUEST_PAYLOAD",
  CheckRequestPayload |-> "REQUEST_PAYLOAD", CheckResponsePayload |-> "RESPONSE_PAYLOAD",
  GetRequestPayload |-> "REQUEST_PAYLOAD", GetResponsePayload |-> "RESPONSE_PAYLOAD",
  GetUsageAllocationRequestPayload |-> "REQUEST_PAYLOAD", GetUsageAllocationResponsePayload |-> "RESPONSE_PAYLOAD",
  ObtainLeaseRequestPayload |-> "REQUEST_PAYLOAD", ObtainLeaseResponsePayload |-> "RESPONSE_PAYLOAD",
  LocateRequestPayload |-> "REQUEST_PAYLOAD", LocateResponsePayload |-> "RESPONSE_PAYLOAD" ]
ClassSincePayloads2 == [ x \in {} |-> <<10, 20>> ]
=============================================================================
