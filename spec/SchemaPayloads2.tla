--------------------------- MODULE SchemaPayloads2 ---------------------------
(* Operation payloads, part 2 (KMIP 1.x section 4 "Client-to-Server        *)
(* Operations", KMIP 2.0 section 6.1): object life cycle and retrieval.     *)
EXTENDS KmipSchemaCore

SchemaPayloads2T == [
  \* --- Activate (1.0 4.18 / 1.1+ 4.19) -------------------------------------
  ActivateRequestPayload |-> <<
      Opt("unique_identifier", "UNIQUE_IDENTIFIER", "text") >>,
  ActivateResponsePayload |-> <<
      Req("unique_identifier", "UNIQUE_IDENTIFIER", "text") >>,
  \* --- Revoke (1.0 4.19 / 1.1+ 4.20) ---------------------------------------
  RevokeRequestPayload |-> <<
      Opt("unique_identifier", "UNIQUE_IDENTIFIER", "text"),
      ReqS("revocation_reason", "REVOCATION_REASON", "RevocationReason"),
      Opt("compromise_occurrence_date", "COMPROMISE_OCCURRENCE_DATE", "date") >>,
  RevokeResponsePayload |-> <<
      Req("unique_identifier", "UNIQUE_IDENTIFIER", "text") >>
]
ClassTagPayloads2 == [
  ActivateRequestPayload |-> "REQUEST_PAYLOAD", ActivateResponsePayload |-> "RESPONSE_PAYLOAD",
  RevokeRequestPayload |-> "REQUEST_PAYLOAD", RevokeResponsePayload |-> "RESPONSE_PAYLOAD" ]
ClassSincePayloads2 == [ x \in {} |-> <<10, 20>> ]
=============================================================================
