--------------------------- MODULE SchemaPayloads2 ---------------------------
EXTENDS KmipSchemaCore
SchemaPayloads2T == [ x \in {} |-> <<>> ]
ClassTagPayloads2 == [ x \in {} |-> "" ]
ClassSincePayloads2 == [ x \in {} |-> <<10, 20>> ]
=============================================================================
