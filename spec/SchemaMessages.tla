--------------------------- MODULE SchemaMessages ---------------------------
(* Message envelope (KMIP 1.x section 6/7 "Message Contents / Format").     *)
EXTENDS KmipSchemaCore

SchemaMessagesT == [
  RequestHeader |-> <<
      ReqS("protocol_version", "PROTOCOL_VERSION", "ProtocolVersion"),
      Opt("maximum_response_size", "MAXIMUM_RESPONSE_SIZE", "int"),
      Opt("asynchronous_indicator", "ASYNCHRONOUS_INDICATOR", "bool"),
      OptS("authentication", "AUTHENTICATION", "Authentication"),
      OptE("batch_error_cont_option", "BATCH_ERROR_CONTINUATION_OPTION", "BatchErrorContinuationOption"),
      Opt("batch_order_option", "BATCH_ORDER_OPTION", "bool"),
      Opt("time_stamp", "TIME_STAMP", "date"),
      Req("batch_count", "BATCH_COUNT", "int") >>,
  ResponseHeader |-> <<
      ReqS("protocol_version", "PROTOCOL_VERSION", "ProtocolVersion"),
      Req("time_stamp", "TIME_STAMP", "date"),
      Since(Opt("server_hashed_password", "SERVER_HASHED_PASSWORD", "bytes"), 20),
      Since(Opt("server_correlation_value", "SERVER_CORRELATION_VALUE", "text"), 12),
      Req("batch_count", "BATCH_COUNT", "int") >>,
  RequestBatchItem |-> <<
      ReqE("operation", "OPERATION", "Operation"),
      Since(Opt("ephemeral", "EPHEMERAL", "bool"), 20),
      Opt("unique_batch_item_id", "UNIQUE_BATCH_ITEM_ID", "bytes"),
      F("request_payload", "REQUEST_PAYLOAD", "union", "", "1", 10, 20) >>,
  ResponseBatchItem |-> <<
      OptE("operation", "OPERATION", "Operation"),
      Opt("unique_batch_item_id", "UNIQUE_BATCH_ITEM_ID", "bytes"),
      ReqE("result_status", "RESULT_STATUS", "ResultStatus"),
      OptE("result_reason", "RESULT_REASON", "ResultReason"),
      Opt("result_message", "RESULT_MESSAGE", "text"),
      Opt("async_correlation_value", "ASYNCHRONOUS_CORRELATION_VALUE", "bytes"),
      F("response_payload", "RESPONSE_PAYLOAD", "union", "", "?", 10, 20) >>,
  RequestMessage |-> <<
      ReqS("request_header", "REQUEST_HEADER", "RequestHeader"),
      SomeS("batch_items", "BATCH_ITEM", "RequestBatchItem") >>,
  ResponseMessage |-> <<
      ReqS("response_header", "RESPONSE_HEADER", "ResponseHeader"),
      SomeS("batch_items", "BATCH_ITEM", "ResponseBatchItem") >>
]
ClassTagMessages == [
  RequestHeader |-> "REQUEST_HEADER", ResponseHeader |-> "RESPONSE_HEADER", RequestBatchItem |-> "BATCH_ITEM",
  ResponseBatchItem |-> "BATCH_ITEM", RequestMessage |-> "REQUEST_MESSAGE", ResponseMessage |-> "RESPONSE_MESSAGE" ]
ClassSinceMessages == [ RequestMessage |-> <<10, 20>> ]
=============================================================================
