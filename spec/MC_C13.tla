------------------------------ MODULE MC_C13 ------------------------------
(* C13: well-formed requests never hit the internal-error path.
   The grid  operation x stored object type (7, + none, + destroyed) x
   lifecycle state x KMIP version x parameter menu.  "Build" requests
   construct one object of each type in each lifecycle state; "probe"
   requests (batch item id "g") are the grid cells: each is offered in every
   built state and is a leaf.  TLC checks NoInternalError on the model and
   emits every cell; the harness executes each on the real engine. *)
EXTENDS MC_Engine, BuiltinPolicies

AllBits == <<"ENCRYPT", "DECRYPT", "SIGN", "VERIFY", "MAC_GENERATE", "WRAP_KEY", "DERIVE_KEY">>
Types7 == {"SymmetricKey", "PublicKey", "PrivateKey", "SplitKey", "Certificate", "SecretData", "OpaqueData"}
CONSTANT Vers       \* versions probed

IsProbe(r) == r.items[1].bid = "g"
LastWasProbe == ev.kind = "req" /\ IsProbe(ev.req)
ProbeView == <<st, g, LastWasProbe>>

Build(u, op, p) == Rq(u, 12, "None", <<It(op, "", p)>>)
Probe(u, v, op, p) == Rq(u, v, "None", <<It(op, "g", p)>>)

RegP(t) == PRegister(t, AllBits, <<AI("Name", 0, "n1"), AI("Object Group", 0, "og1")>>)

AttrNames == {"Name", "Object Group", "Application Specific Information", "Sensitive", "Operation Policy Name",
              "Cryptographic Usage Mask", "State", "Cryptographic Algorithm", "Cryptographic Length",
              "Contact Information", "x-custom", "Initial Date", "Unique Identifier", "Object Type",
              "Certificate Type", "Activation Date", "Digest", "Link",
              \* the rest of the names a request can carry: more of the rule table, and names the server has no rule for
              "Fresh", "Lease Time", "Certificate Length", "Deactivation Date", "Process Start Date", "Last Change Date",
              "Destroy Date", "Archive Date", "Compromise Date",
              "Always Sensitive", "Extractable", "Never Extractable", "Original Creation Date"}
ValOf(n) == CASE n = "Name" -> "n9" [] n = "Object Group" -> "og9"
              [] n = "Application Specific Information" -> <<"ns1", "d1">>
              [] n = "Sensitive" -> TRUE [] n = "Operation Policy Name" -> "public"
              [] n = "Cryptographic Usage Mask" -> <<"ENCRYPT">> [] n = "State" -> "Active"
              [] n = "Cryptographic Algorithm" -> "AES" [] n = "Cryptographic Length" -> 128
              [] n = "Initial Date" -> 5 [] n = "Unique Identifier" -> "1" [] n = "Object Type" -> "SecretData"
              [] n = "Certificate Type" -> "X_509" [] n = "Activation Date" -> 7
              [] n \in {"Fresh", "Always Sensitive", "Extractable", "Never Extractable"} -> TRUE
              [] n \in {"Lease Time", "Certificate Length"} -> 60
              [] n \in {"Deactivation Date", "Process Start Date", "Last Change Date", "Destroy Date", "Archive Date",
                        "Compromise Date", "Original Creation Date"} -> 7
              [] OTHER -> "zz"
\* names that can be sent in the KMIP 2.0 forms (need a tag)
Names20 == AttrNames \ {"x-custom", "Digest", "Link", "Contact Information"}

PGetF(u, f, c) == [PGet(u) EXCEPT !.fmt = f, !.comp = c]
PW(u, method, haskey, k, hasmac, anames, enc) ==
    [PGet(u) EXCEPT !.wrap = TRUE, !.w = [method |-> method, haskey |-> haskey, kuid |-> k, hasmac |-> hasmac,
                                           anames |-> anames, enc |-> enc, nocp |-> FALSE]]

(* Grid cells are DESCRIPTORS [k, who, v, u, n, i, s, b] with homogeneous field types (TLC cannot
   build a set of requests whose attribute values have different types); MkC13 turns a descriptor
   into the request. *)
D(k, who, v, u, n, i, s2, b) == [k |-> k, who |-> who, v |-> v, u |-> u, n |-> n, i |-> i, s |-> s2, b |-> b]

LocateFilterOf(n) ==
    CASE n = "@two" -> <<A("Initial Date", 100), A("Initial Date", 101)>>
      [] n = "@three" -> <<A("Initial Date", 100), A("Initial Date", 101), A("Initial Date", 102)>>
      [] n = "@far" -> <<A("Initial Date", 2147483647)>>     \* stands for a date far outside the calendar (10^17 on the wire)
      [] n = "@typealg" -> <<A("Object Type", "SymmetricKey"), A("Cryptographic Algorithm", "AES")>>
      [] n = "@none" -> <<>>
      [] OTHER -> <<A(n, ValOf(n))>>

CreateP(n) ==
    CASE n = "ok" -> PCreate(<<"ENCRYPT">>, <<>>)
      [] n = "custom" -> PCreate(<<>>, <<A("x-custom", "zz")>>)
      [] n = "badlen" -> [otype |-> "SymmetricKey", attrs |-> <<A("Cryptographic Algorithm", "AES"), A("Cryptographic Length", 100), A("Cryptographic Usage Mask", <<>>)>>]
      [] n = "secret" -> [otype |-> "SecretData", attrs |-> <<>>]
      [] n = "contact" -> PCreate(<<"ENCRYPT">>, <<A("Contact Information", "me")>>)
      [] n = "state" -> PCreate(<<"ENCRYPT">>, <<A("State", "Active")>>)
      [] n = "names" -> PCreate(<<"ENCRYPT">>, <<AI("Name", 0, "a"), A("Name", "b")>>)
      [] OTHER -> PCreate(<<"ENCRYPT">>, <<A("Cryptographic Length", 128)>>)

RegExtra(n) ==
    CASE n = "alg" -> <<A("Cryptographic Algorithm", "AES")>>
      [] n = "len" -> <<A("Cryptographic Length", 256)>>
      [] n = "sens" -> <<A("Sensitive", TRUE)>>
      [] n = "state" -> <<A("State", "Active")>>
      [] n = "ctype" -> <<A("Certificate Type", "X_509")>>
      [] OTHER -> <<>>

\* registrations whose OBJECT lacks an optional field of the key block / has an unusual sub-type
RegShape(t, shape) ==
    LET b == PRegister(t, AllBits, <<>>) IN
    CASE shape = "noalg" -> [b EXCEPT !.obj.alg = "NA"]
      [] shape = "nolen" -> [b EXCEPT !.obj.len = 0]
      [] shape = "empty" -> [b EXCEPT !.obj.val = "", !.obj.vlen = 0]
      [] shape = "pgp"   -> [b EXCEPT !.obj.sub = IF t = "Certificate" THEN "PGP" ELSE @]
      \* a split key with a prime field size (a Big Integer): small, or beyond 64 bits
      [] shape = "prime" -> [b EXCEPT !.obj.sub = IF t = "SplitKey" THEN "PRIME" ELSE @]
      [] shape = "bigprime" -> [b EXCEPT !.obj.sub = IF t = "SplitKey" THEN "PRIME_BIG" ELSE @]
      [] OTHER -> b

GANames(n) == CASE n = "some" -> <<"Cryptographic Algorithm", "x-custom", "State">>
                [] n = "dup" -> <<"Name", "Name", "Sensitive", "Operation Policy Name">>
                [] OTHER -> <<>>

MkC13(d) ==
    LET P(op, p) == Probe(d.who, d.v, op, p) IN
    CASE d.k = "build" -> Build(d.who, d.n, IF d.n = "Register" THEN RegP(d.s)
                                          ELSE IF d.n = "Revoke" THEN PRevoke(d.u, d.s) ELSE PUid(d.u))
      [] d.k = "get" -> P("Get", PGetF(d.u, d.n, d.s))
      [] d.k = "wrap" -> P("Get", PW(d.u, d.n, d.b, d.i, d.s = "mac", d.s = "anames", IF d.s = "ttlv" THEN "TTLV_ENCODING" ELSE "NO_ENCODING"))
      [] d.k = "wrapnocp" -> P("Get", [PW(d.u, "ENCRYPT", TRUE, d.i, FALSE, FALSE, "NO_ENCODING") EXCEPT !.w.nocp = TRUE])
      [] d.k = "getattrs" -> P("GetAttributes", [uid |-> d.u, names |-> GANames(d.n)])
      [] d.k = "uidop" -> P(d.n, PUid(d.u))
      [] d.k = "revoke" -> P("Revoke", PRevoke(d.u, d.n))
      [] d.k = "crypto" -> P(d.n, [uid |-> d.u, hascp |-> d.b])
      [] d.k = "mac" -> P("MAC", [uid |-> d.u, hasalg |-> d.b, hasdata |-> d.s = "data"])
      [] d.k = "derive" -> P("DeriveKey", [otype |-> d.n, uids |-> <<d.u>>, method |-> IF d.s = "" THEN "HMAC" ELSE d.s,
                                          attrs |-> <<A("Cryptographic Algorithm", "AES"), A("Cryptographic Length", d.i),
                                                      A("Cryptographic Usage Mask", <<"ENCRYPT">>)>>])
      [] d.k = "locate" -> P("Locate", PLocate(LocateFilterOf(d.n), -1, -1))
      [] d.k = "page" -> P("Locate", PLocate(<<>>, d.u, d.i))
      [] d.k = "query" -> P("Query", [qops |-> TRUE])
      [] d.k = "discover" -> P("DiscoverVersions", [versions |-> IF d.b THEN <<12, 30>> ELSE <<>>])
      [] d.k = "mod1x" -> P("ModifyAttribute", [uid |-> d.u, attr |-> AI(d.n, d.i, ValOf(d.n))])
      [] d.k = "del1x" -> P("DeleteAttribute", [uid |-> d.u, name |-> d.n, idx |-> d.i])
      [] d.k = "mod20" -> P("ModifyAttribute", [uid |-> d.u, hascur |-> d.b, cur |-> A(d.n, ValOf(d.n)), new |-> A(d.n, ValOf(d.n))])
      [] d.k = "mod20name" -> P("ModifyAttribute", [uid |-> d.u, hascur |-> TRUE, cur |-> A("Name", "n1"), new |-> A("Name", "n7")])
      [] d.k = "delcur" -> P("DeleteAttribute", [uid |-> d.u, hascur |-> TRUE, cur |-> A(d.n, ValOf(d.n)), ref |-> ""])
      [] d.k = "delref" -> P("DeleteAttribute", [uid |-> d.u, hascur |-> FALSE, cur |-> A("", ""), ref |-> d.n])
      [] d.k = "set" -> P("SetAttribute", [uid |-> d.u, new |-> A(d.n, ValOf(d.n))])
      [] d.k = "create" -> P("Create", CreateP(d.n))
      [] d.k = "register" -> P("Register", PRegister(d.s, AllBits, RegExtra(d.n)))
      \* a creation template carrying one more attribute, for every name of the menu
      \* every symmetric algorithm the server knows (and some it does not) x key lengths, effective lengths included
      [] d.k = "createalg" -> P("Create", [otype |-> "SymmetricKey",
                                           attrs |-> <<A("Cryptographic Algorithm", d.n), A("Cryptographic Length", d.i),
                                                       A("Cryptographic Usage Mask", <<"ENCRYPT">>)>>])
      [] d.k = "createattr" -> P("Create", PCreate(<<"ENCRYPT">>, <<A(d.n, ValOf(d.n))>>))
      [] d.k = "registerattr" -> P("Register", PRegister(d.s, AllBits, <<A(d.n, ValOf(d.n))>>))
      [] d.k = "regshape" -> P("Register", RegShape(d.s, d.n))

\* only build steps that succeed (the lifecycle is monotone, so the build graph is finite)
BuildMenu(s) ==
    IF DOMAIN s.objs = {} /\ s.seq = 0 THEN {D("build", "alice", 12, 0, "Register", 0, t, FALSE) : t \in Types7}
    ELSE IF DOMAIN s.objs = {1}
         THEN LET o == s.objs[1] IN
              (IF o.state = "PreActive" THEN {D("build", "alice", 12, 1, "Activate", 0, "", FALSE)} ELSE {})
              \cup (IF o.state \in {"PreActive", "Active"} THEN {D("build", "alice", 12, 1, "Revoke", 0, "KEY_COMPROMISE", FALSE)} ELSE {})
              \cup (IF o.state = "Active" THEN {D("build", "alice", 12, 1, "Revoke", 0, "UNSPECIFIED", FALSE)} ELSE {})
              \cup (IF o.state \in {"PreActive", "NA"} THEN {D("build", "alice", 12, 1, "Destroy", 0, "", FALSE)} ELSE {})
         ELSE {}

Grid(s) ==
    LET us == {1, 9} IN
    UNION {
      {D("get", w, v, u, "", 0, "", FALSE) : u \in us}
      \cup {D("get", w, v, 1, f, 0, "", FALSE) : f \in {"RAW", "PKCS_1"}}
      \cup {D("get", w, v, 1, "", 0, "EC_PUBLIC_KEY_TYPE_UNCOMPRESSED", FALSE)}
      \cup {D("wrap", w, v, 1, "ENCRYPT", k, "", TRUE) : k \in us}
      \cup {D("wrap", w, v, 1, "ENCRYPT", 0, x, FALSE) : x \in {"mac", ""}}
      \cup {D("wrapnocp", w, v, 1, "", k, "", TRUE) : k \in us}
      \cup {D("wrap", w, v, 1, "MAC_SIGN", 1, "", TRUE), D("wrap", w, v, 1, "ENCRYPT", 1, "anames", TRUE),
            D("wrap", w, v, 1, "ENCRYPT", 1, "ttlv", TRUE)}
      \cup {D("getattrs", w, v, u, n, 0, "", FALSE) : u \in us, n \in {"", "some", "dup"}}
      \cup {D("uidop", w, v, u, op, 0, "", FALSE) : op \in {"GetAttributeList", "Activate", "Destroy", "Rekey", "Check"}, u \in us}
      \cup {D("revoke", w, v, u, c, 0, "", FALSE) : u \in us, c \in {"KEY_COMPROMISE", "CESSATION_OF_OPERATION"}}
      \cup {D("crypto", w, v, u, op, 0, "", hc) : op \in {"Encrypt", "Decrypt", "Sign", "SignatureVerify"}, u \in us, hc \in BOOLEAN}
      \cup {D("mac", w, v, u, "", 0, x, ha) : u \in us, ha \in BOOLEAN, x \in {"data", ""}}
      \cup {D("derive", w, v, u, t, l, "", FALSE) : t \in {"SymmetricKey", "SecretData", "OpaqueData"}, u \in us, l \in {128, 100, 0, -8, -64}}
      \* a derivation method whose output does not depend on the requested length
      \cup {D("derive", w, v, 1, "SymmetricKey", l, "HASH", FALSE) : l \in {128, 256, 0, -8, -64}}
      \cup {D("locate", w, v, 0, n, 0, "", FALSE) : n \in (AttrNames \ {"Digest", "Link"}) \cup {"@two", "@three", "@typealg", "@none", "@far"}}
      \cup {D("page", w, v, o, "", m, "", FALSE) : o \in {0, 5}, m \in {0, 1}}
      \cup {D("query", w, v, 0, "", 0, "", FALSE), D("discover", w, v, 0, "", 0, "", FALSE), D("discover", w, v, 0, "", 0, "", TRUE)}
      \cup (IF v >= 20
            THEN {D("mod20", w, v, 1, n, 0, "", hc) : n \in Names20, hc \in BOOLEAN}
                 \cup {D("mod20name", w, v, 1, "", 0, "", FALSE)}
                 \cup {D("delcur", w, v, 1, n, 0, "", FALSE) : n \in Names20}
                 \cup {D("delref", w, v, 1, n, 0, "", FALSE) : n \in AttrNames \cup {""}}
                 \cup {D("set", w, v, 1, n, 0, "", FALSE) : n \in Names20}
            ELSE {D("mod1x", w, v, 1, n, i, "", FALSE) : n \in AttrNames, i \in {-1, 0, 1, -2}}
                 \cup {D("del1x", w, v, 1, n, i, "", FALSE) : n \in AttrNames \cup {""}, i \in {-99, 0, 1, -1}})
      : w \in {"alice"}, v \in Vers}
    \cup {D("get", "bob", 12, 1, "", 0, "", FALSE), D("uidop", "bob", 12, 1, "Destroy", 0, "", FALSE)}
    \cup {D("create", "alice", 12, 0, n, 0, "", FALSE) : n \in {"ok", "custom", "badlen", "secret", "contact", "state", "names", "dup"}}
    \cup {D("register", "alice", 12, 0, n, 0, t, FALSE) : t \in Types7 \cup {"Template"}, n \in {"", "alg", "len", "sens", "state", "ctype"}}
    \cup {D("regshape", "alice", 12, 0, n, 0, t, FALSE) : t \in Types7, n \in {"noalg", "nolen", "empty", "pgp"}}
    \cup {D("regshape", "alice", 12, 0, n, 0, "SplitKey", FALSE) : n \in {"prime", "bigprime"}}
    \cup {D("createalg", "alice", 12, 0, alg, len, "", FALSE) :
              alg \in {"AES", "TRIPLE_DES", "BLOWFISH", "CAMELLIA", "CAST5", "IDEA", "RC4", "DES", "RSA", "HMAC_SHA256", "TWOFISH"},
              len \in {0, 40, 56, 64, 112, 128, 168, 192, 256, 448, 100}}
    \cup UNION {{D("createattr", "alice", v, 0, n, 0, "", FALSE) : n \in (IF v < 20 THEN AttrNames ELSE Names20)} : v \in Vers}
    \cup UNION {{D("registerattr", "alice", v, 0, n, 0, t, FALSE) : t \in {"SymmetricKey", "Certificate", "OpaqueData", "SplitKey"},
                                                                  n \in (IF v < 20 THEN AttrNames ELSE Names20)} : v \in Vers}

MenuC13(s) == IF LastWasProbe THEN {} ELSE BuildMenu(s) \cup (IF depth >= 1 THEN Grid(s) ELSE {})

CheckedC13 == {"C13_item", "C08_failclean", "C08_frame", "C15_fixed", "C15_fail", "C04_moves"}
=============================================================================
